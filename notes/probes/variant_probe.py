"""Throwaway reconnaissance: static evaluation of the predefined variants (no import of pokerkit)."""
import ast
tree = ast.parse(open('/repo/pokerkit/games.py').read())
classes = {n.name: n for n in tree.body if isinstance(n, ast.ClassDef)}
def bases(c): return [b.id for b in c.bases if isinstance(b, ast.Name) and b.id in classes]
def c3(name):
    def merge(seqs):
        res = []
        seqs = [list(s) for s in seqs if s]
        while seqs:
            for s in seqs:
                h = s[0]
                if not any(h in t[1:] for t in seqs): break
            else: raise ValueError('inconsistent MRO')
            res.append(h)
            seqs = [[x for x in s if x != h] for s in seqs]; seqs = [s for s in seqs if s]
        return res
    bs = bases(classes[name])
    return [name] + merge([c3(b) for b in bs] + [bs])
def class_attr(name, attr):
    for k in c3(name):
        for st in classes[k].body:
            if isinstance(st, ast.Assign) and any(isinstance(t, ast.Name) and t.id == attr for t in st.targets): return k, st.value
            if isinstance(st, ast.AnnAssign) and isinstance(st.target, ast.Name) and st.target.id == attr and st.value is not None: return k, st.value
    return None, None
def method(name, m):
    for k in c3(name):
        for st in classes[k].body:
            if isinstance(st, ast.FunctionDef) and st.name == m: return k, st
    return None, None
def ev(e, cls, env):
    if isinstance(e, ast.Constant): return e.value
    if isinstance(e, ast.Tuple): return tuple(ev(x, cls, env) for x in e.elts)
    if isinstance(e, ast.Name): return env[e.id] if e.id in env else e.id
    if isinstance(e, ast.Attribute):
        if isinstance(e.value, ast.Name) and e.value.id == 'self':
            k, v = class_attr(cls, e.attr); return ev(v, cls, {})
        return ast.unparse(e)
    if isinstance(e, ast.BinOp) and isinstance(e.op, ast.Mult): return ev(e.left, cls, env) * ev(e.right, cls, env)
    if isinstance(e, ast.IfExp): return ev(e.body, cls, env) if ev(e.test, cls, env) else ev(e.orelse, cls, env)
    if isinstance(e, ast.Call) and isinstance(e.func, ast.Name) and e.func.id == 'Street': return ('Street',) + tuple(ev(a, cls, env) for a in e.args)
    return ast.unparse(e)
def streets(cls):
    """follow super().__init__ chains symbolically up to Poker.__init__ to get the streets tuple"""
    k, init = method(cls, '__init__')
    env = {a.arg: f'${a.arg}' for a in init.args.args[1:]}
    while k != 'Poker':
        call = next(n for n in ast.walk(init) if isinstance(n, ast.Call) and isinstance(n.func, ast.Attribute) and n.func.attr == '__init__')
        mro = c3(cls); nxt = mro[mro.index(k) + 1:]
        k2, init2 = next((c, m) for c in nxt for m in [next((s for s in classes[c].body if isinstance(s, ast.FunctionDef) and s.name == '__init__'), None)] if m)
        params = [a.arg for a in init2.args.args[1:]]
        vals = [ev(a, cls, env) for a in call.args]
        env = dict(zip(params, vals)); k, init = k2, init2
    return env
for name in classes:
    if any(isinstance(s, ast.FunctionDef) and s.name == 'create_state' for s in classes[name].body) or name == 'NoLimitRoyalHoldem':
        bs = ev(class_attr(name, 'betting_structure')[1], name, {}); cap = ev(class_attr(name, 'max_completion_betting_or_raising_count')[1], name, {})
        deck = ev(class_attr(name, 'deck')[1], name, {}); ht = ev(class_attr(name, 'hand_types')[1], name, {})
        env = streets(name)
        print(f"{name}\n   mro={c3(name)}\n   structure={bs} cap={cap} deck={deck} hands={ht} bring_in={env['bring_in']} blinds={env['raw_blinds_or_straddles']}")
        for s in env['streets']: print("     ", s[1:])
