"""Throwaway reconnaissance: per-path symbolic deltas of chip cells in State methods."""
import ast, sys, itertools, collections
SRC = '/repo/pokerkit/state.py'
tree = ast.parse(open(SRC).read())
State = next(n for n in tree.body if isinstance(n, ast.ClassDef) and n.name == 'State')
funcs = {n.name: n for n in State.body if isinstance(n, ast.FunctionDef)}
CHIP = {'stacks', 'bets', 'payoffs'}

class Lin:
    """integer-linear combination of atoms"""
    def __init__(self, d=None, c=0): self.d = {k: v for k, v in (d or {}).items() if v}; self.c = c
    def __add__(s, o): 
        d = dict(s.d)
        for k, v in o.d.items(): d[k] = d.get(k, 0) + v
        return Lin(d, s.c + o.c)
    def __neg__(s): return Lin({k: -v for k, v in s.d.items()}, -s.c)
    def __sub__(s, o): return s + (-o)
    def key(s): return (tuple(sorted(s.d.items())), s.c)
    def __eq__(s, o): return s.key() == o.key()
    def __repr__(s):
        parts = [f"{'+' if v>0 else '-'}{'' if abs(v)==1 else abs(v)}{k}" for k, v in sorted(s.d.items())]
        if s.c or not parts: parts.append(f"{s.c:+d}")
        return ' '.join(parts)
def atom(name): return Lin({name: 1})

class Path:
    def __init__(s): s.env = {}; s.store = {}; s.conds = []; s.writes = collections.OrderedDict()
    def copy(s):
        p = Path(); p.env = dict(s.env); p.store = dict(s.store); p.conds = list(s.conds); p.writes = collections.OrderedDict(s.writes); return p

def cell_of(node, P):
    # self.X[idx] -> (X, idxterm)
    if isinstance(node, ast.Subscript) and isinstance(node.value, ast.Attribute) and isinstance(node.value.value, ast.Name) and node.value.value.id == 'self':
        return (node.value.attr, repr(ev(node.slice, P)))
    return None

def ev(e, P):
    if isinstance(e, ast.Constant) and isinstance(e.value, int) and not isinstance(e.value, bool): return Lin(c=e.value)
    if isinstance(e, ast.Name):
        return P.env.get(e.id, atom(e.id))
    if isinstance(e, ast.BinOp) and isinstance(e.op, (ast.Add, ast.Sub)):
        a, b = ev(e.left, P), ev(e.right, P)
        return a + b if isinstance(e.op, ast.Add) else a - b
    if isinstance(e, ast.UnaryOp) and isinstance(e.op, ast.USub): return -ev(e.operand, P)
    c = cell_of(e, P)
    if c is not None:
        if c in P.store: return P.store[c]
        return atom(f"{c[0]}0[{c[1]}]")
    # opaque: canonical text with env substitution of names
    class Sub(ast.NodeTransformer):
        def visit_Name(self, n):
            if n.id in P.env and isinstance(n.ctx, ast.Load):
                return ast.parse('(' + repr(P.env[n.id]).replace(' ', '') + ')', mode='eval').body if False else ast.Name(id='<' + repr(P.env[n.id]) + '>', ctx=ast.Load())
            return n
    return atom(ast.unparse(Sub().visit(ast.parse(ast.unparse(e), mode='eval').body)))

def run_block(stmts, paths):
    for st in stmts:
        nxt = []
        for P in paths:
            nxt.extend(step(st, P))
        paths = nxt
    return paths

def assign(target, val, P):
    if isinstance(target, ast.Name): P.env[target.id] = val; return
    c = cell_of(target, P)
    if c is not None:
        P.store[c] = val; P.writes[c] = val; return
    # attribute or other: ignore
def step(st, P):
    if getattr(P, 'done', False): return [P]
    if isinstance(st, ast.Assign) and len(st.targets) == 1:
        t = st.targets[0]
        if isinstance(t, ast.Tuple):
            for i, el in enumerate(t.elts):
                assign(el, atom(f"{ast.unparse(st.value)}.{i}"), P)
        else:
            assign(t, ev(st.value, P), P)
        return [P]
    if isinstance(st, ast.AugAssign) and isinstance(st.op, (ast.Add, ast.Sub)):
        cur = ev(st.target, P); v = ev(st.value, P)
        assign(st.target, cur + v if isinstance(st.op, ast.Add) else cur - v, P); return [P]
    if isinstance(st, ast.If):
        a = P.copy(); a.conds.append(ast.unparse(st.test)); b = P.copy(); b.conds.append('not (' + ast.unparse(st.test) + ')')
        return run_block(st.body, [a]) + run_block(st.orelse, [b])
    if isinstance(st, ast.For):
        # generic iteration: body once with symbolic loop var, plus zero iterations
        a = P.copy(); a.conds.append(f"{ast.unparse(st.target)} in {ast.unparse(st.iter)}")
        if isinstance(st.target, ast.Name): a.env.pop(st.target.id, None)
        return run_block(st.body, [a]) + [P]
    if isinstance(st, ast.Return): P.done = True; return [P]
    return [P]

for name in ['post_ante', 'post_blind_or_straddle', 'collect_bets', 'check_or_call', 'post_bring_in', 'complete_bet_or_raise_to', 'pull_chips']:
    f = funcs[name]
    paths = run_block(f.body, [Path()])
    print(f"== {name}: {len(paths)} paths")
    seen = set()
    for P in paths:
        delta = {}
        for (attr, idx), val in P.writes.items():
            if attr in CHIP:
                delta[(attr, idx)] = val - atom(f"{attr}0[{idx}]")
        sig = tuple(sorted((k, repr(v)) for k, v in delta.items()))
        if sig in seen: continue
        seen.add(sig)
        print("   conds:", [c for c in P.conds if 'bets' in c or 'statuses' in c or ' in ' in c][:4])
        for (attr, idx), v in delta.items():
            print(f"      d{attr}[{idx}] = {v}")
        # obligations
        idxs = {idx for (a, idx) in delta}
        for idx in idxs:
            ds, dp, db = (delta.get((a, idx), Lin()) for a in ('stacks', 'payoffs', 'bets'))
            print(f"      [{idx}] mirror: {'OK' if ds == dp else 'FAIL'}   transfer ds+db = {ds + db}")
