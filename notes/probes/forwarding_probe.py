"""Throwaway reconnaissance: argument passed to a differently-named parameter while the callee has a same-named one."""
import ast, glob, os
mods = {os.path.basename(p)[:-3]: ast.parse(open(p).read()) for p in glob.glob('/repo/pokerkit/*.py')}
defs = {}   # simple name -> list of (qualname, FunctionDef)
for m, t in mods.items():
    for n in ast.walk(t):
        if isinstance(n, ast.ClassDef):
            for f in n.body:
                if isinstance(f, ast.FunctionDef): defs.setdefault(f.name, []).append((f'{m}.{n.name}.{f.name}', f, True))
        elif isinstance(n, ast.FunctionDef) and n in t.body:
            defs.setdefault(n.name, []).append((f'{m}.{n.name}', n, False))
count = 0; sites = 0
for m, t in mods.items():
    for cls in [n for n in ast.walk(t) if isinstance(n, ast.ClassDef)]:
        for f in [x for x in cls.body if isinstance(x, ast.FunctionDef)]:
            for c in ast.walk(f):
                if not isinstance(c, ast.Call): continue
                name = c.func.attr if isinstance(c.func, ast.Attribute) else c.func.id if isinstance(c.func, ast.Name) else None
                if name not in defs or len(defs[name]) != 1: continue
                q, g, is_method = defs[name][0]
                params = [a.arg for a in g.args.args][1 if is_method else 0:]
                sites += 1
                for i, a in enumerate(c.args):
                    if isinstance(a, ast.Name) and i < len(params) and a.id != params[i] and a.id in params:
                        count += 1; print(f"{m}.{cls.name}.{f.name}:{c.lineno}: passes '{a.id}' as parameter '{params[i]}' of {q} (which also has '{a.id}')")
                for kw in c.keywords:
                    if isinstance(kw.value, ast.Name) and kw.arg and kw.value.id != kw.arg and kw.value.id in params:
                        count += 1; print(f"{m}.{cls.name}.{f.name}:{c.lineno}: keyword {kw.arg}={kw.value.id} of {q}")
print("call sites resolved:", sites, "suspicious:", count)
