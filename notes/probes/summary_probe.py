"""Throwaway reconnaissance: path-sensitive return summaries of betting queries vs. spec formulas,
both normalised by the same function (C03 S1-S5, S12)."""
import ast, itertools
tree = ast.parse(open('/repo/pokerkit/state.py').read())
State = next(n for n in tree.body if isinstance(n, ast.ClassDef) and n.name == 'State')
funcs = {n.name: n for n in State.body if isinstance(n, ast.FunctionDef)}
props = {n.name for n in funcs.values() if any(isinstance(d, ast.Name) and d.id == 'property' for d in n.decorator_list)}
INLINE = {'checking_or_calling_amount', 'effective_bring_in_amount', 'min_completion_betting_or_raising_to_amount',
          'pot_completion_betting_or_raising_to_amount', 'actor_index'}

# ---- terms: ('lin', ((atom,coef)...), const) | ('app', fname, args...) | ('atom', text)
def lin(d, c=0):
    d = {k: v for k, v in d.items() if v}
    if not d: return ('num', c)
    if c == 0 and len(d) == 1 and list(d.values()) == [1]: return next(iter(d))
    return ('lin', tuple(sorted(d.items(), key=repr)), c)
def as_lin(t):
    if t[0] == 'num': return {}, t[1]
    if t[0] == 'lin': return dict(t[1]), t[2]
    return {t: 1}, 0
def add(a, b, sign=1):
    da, ca = as_lin(a); db, cb = as_lin(b); d = dict(da)
    for k, v in db.items(): d[k] = d.get(k, 0) + sign * v
    return lin(d, ca + sign * cb)
def scale(a, k):
    d, c = as_lin(a); return lin({x: v * k for x, v in d.items()}, c * k)
def app(f, *args):
    if f in ('min', 'max'):
        flat = []
        for a in args: flat += list(a[2:]) if a[0] == 'app' and a[1] == f else [a]
        args = tuple(sorted(set(flat), key=repr))
        if len(args) == 1: return args[0]
    return ('app', f) + tuple(args)

def term(e, env, depth=3):
    if isinstance(e, ast.Constant): return ('num', e.value) if isinstance(e.value, int) else ('atom', repr(e.value))
    if isinstance(e, ast.Name): return env.get(e.id, ('atom', e.id))
    if isinstance(e, ast.BinOp):
        a, b = term(e.left, env, depth), term(e.right, env, depth)
        if isinstance(e.op, ast.Add): return add(a, b)
        if isinstance(e.op, ast.Sub): return add(a, b, -1)
        if isinstance(e.op, ast.Mult) and a[0] == 'num': return scale(b, a[1])
        if isinstance(e.op, ast.Mult) and b[0] == 'num': return scale(a, b[1])
    if isinstance(e, ast.Attribute) and isinstance(e.value, ast.Name) and e.value.id == 'self':
        if e.attr in INLINE and depth > 0:
            s = summarise(e.attr, depth - 1)
            live = [(c, v) for c, v in s if v != ('atom', 'None')]
            if len(live) == 1: return live[0][1]
            return ('cases',) + tuple(live)
        return ('atom', f'self.{e.attr}')
    if isinstance(e, ast.Attribute): return ('attr', term(e.value, env, depth), e.attr)
    if isinstance(e, ast.Subscript): return ('idx', term(e.value, env, depth), term(e.slice, env, depth))
    if isinstance(e, ast.Call):
        f = e.func
        if isinstance(f, ast.Name): return app(f.id, *[term(a, env, depth) for a in e.args])
        if isinstance(f, ast.Attribute) and isinstance(f.value, ast.Name) and f.value.id == 'self':
            return app('self.' + f.attr, *[term(a, env, depth) for a in e.args])
    return ('atom', ast.unparse(e))

def summarise(name, depth=3):
    """list of (path condition tuple, returned term); verify-try blocks are treated as 'verified' """
    f = funcs[name]; out = []
    def run(stmts, env, conds):
        for i, st in enumerate(stmts):
            if isinstance(st, ast.Try):   # try: self._verify...() except: return None   -> assume verified
                continue
            if isinstance(st, ast.Assert): continue
            if isinstance(st, ast.Assign) and isinstance(st.targets[0], ast.Name):
                env = dict(env); env[st.targets[0].id] = term(st.value, env, depth); continue
            if isinstance(st, ast.AugAssign) and isinstance(st.target, ast.Name):
                env = dict(env); cur = env.get(st.target.id, ('atom', st.target.id)); v = term(st.value, env, depth)
                env[st.target.id] = add(cur, v, 1 if isinstance(st.op, ast.Add) else -1); continue
            if isinstance(st, ast.If):
                c = ast.unparse(st.test)
                run(st.body + stmts[i + 1:], env, conds + (c,)); run(st.orelse + stmts[i + 1:], env, conds + ('not ' + c if not c.startswith('not ') else c[4:],)); return
            if isinstance(st, ast.Match):
                for case in st.cases:
                    run(case.body + stmts[i + 1:], env, conds + (f'{ast.unparse(st.subject)} is {ast.unparse(case.pattern)}',))
                return
            if isinstance(st, ast.Return):
                out.append((conds, term(st.value, env, depth) if st.value else ('atom', 'None'))); return
            if isinstance(st, ast.Raise): return
    run(f.body, {}, ())
    return out

def spec(src, binds):
    env = {k: term(ast.parse(v, mode='eval').body, {}) for k, v in binds.items()}
    return term(ast.parse(src, mode='eval').body, env)

P = {'p': 'self.actor_indices[0]'}
SPEC = {
 'checking_or_calling_amount': [((), "min(self.stacks[p], max(self.bets) - self.bets[p])")],
 'effective_bring_in_amount': [((), "min(self.stacks[p], self.bring_in)")],
 'min_completion_betting_or_raising_to_amount': [
     (('self.completion_status',), "min(self.get_effective_stack(p) + self.bets[p], max(self.completion_betting_or_raising_amount, self.street.min_completion_betting_or_raising_amount))"),
     (('not self.completion_status',), "min(self.get_effective_stack(p) + self.bets[p], max(self.completion_betting_or_raising_amount, self.street.min_completion_betting_or_raising_amount) + max(self.bets))")],
}
for name, cases in SPEC.items():
    got = {tuple(c for c in conds if 'actor_indices' not in c): t for conds, t in summarise(name) if t != ('atom', 'None')}
    for conds, src in cases:
        want = spec(src, P)
        ok = got.get(conds) == want
        print(f"{name} {conds}: {'MATCH' if ok else 'DIFF'}")
        if not ok: print("   got ", got.get(conds), "\n   want", want, "\n   keys", list(got))
